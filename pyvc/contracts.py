"""Contract registry, the contract context (one text, used to *verify* a body and to *assume* at call sites),
loop specifications and the per-function verification driver."""
from __future__ import annotations

import ast
import itertools
import time
from dataclasses import dataclass, field
from typing import Any, Callable

import z3

from . import sym
from .interp import Frame, Interp, RaiseEx, _Break, _Continue, _Return
from .path import Obligation, Path, PathResult, explore
from .values import (GList, Poison, ExcVal, Infeasible, Obj, Opaque, PDict, PList, SArr, SBool, SInt, SMap, SName, SOpt, SReal,
                     SSeq, SSet, SpecFn, Unsupported, num_term, real_term)


# ----------------------------------------------------------------------------- type descriptors
class T:
    """Shape of an argument / result / havocked loop variable."""
    def __init__(self, tag, **kw):
        self.tag = tag
        self.kw = kw

    @staticmethod
    def expr(cls="Expression", exact=False, known=None):
        return T("obj", cls=cls, exact=exact, known=known)

    @staticmethod
    def obj(cls, exact=True, known=None):
        return T("obj", cls=cls, exact=exact, known=known)

    @staticmethod
    def real(pytype="float"):
        return T("real", pytype=pytype)

    @staticmethod
    def int_():
        return T("int")

    @staticmethod
    def bool_():
        return T("bool")

    @staticmethod
    def name():
        return T("name")

    @staticmethod
    def opt(inner):
        return T("opt", inner=inner)

    @staticmethod
    def none():
        return T("none")

    @staticmethod
    def const(v):
        return T("const", value=v)

    @staticmethod
    def seq(elem, kind="list"):
        return T("seq", elem=elem, kind=kind)

    @staticmethod
    def arr():
        return T("arr")

    @staticmethod
    def custom(maker):
        return T("custom", maker=maker)

    def fresh(self, ip: Interp, hint: str):
        tag = self.tag
        if tag == "obj":
            ref = sym.fresh(hint, sym.Ref)
            o = Opaque(ref, self.kw["cls"], known=dict(self.kw.get("known") or {}), exact=self.kw["exact"])
            if self.kw["exact"] and self.kw["cls"] in ip.schema.kinds.const:
                ip.path.assume(ip.schema.kinds.is_kind(ref, self.kw["cls"]))
                ip.path.kinds[str(ref)] = self.kw["cls"]
                if isinstance((self.kw.get("known") or {}).get("op"), str):
                    ip.schema.set_known_op(ip, ref, self.kw["known"]["op"])
            elif self.kw["cls"] in ip.src.classes and self.kw["cls"] != "object":
                subs = [s for s in ip.src.subclasses(self.kw["cls"]) if s in ip.schema.kinds.const]
                ip.path.assume(ip.schema.kinds.is_any(ref, subs))
            for f, v in (self.kw.get("known") or {}).items():
                ip.reg.assume_known_field(ip, o, f, v)
            ip.schema.touch(ip, o)
            return o
        if tag == "real":
            return SReal(sym.fresh(hint, sym.R), self.kw["pytype"])
        if tag == "int":
            return SInt(sym.fresh(hint, sym.I))
        if tag == "bool":
            return SBool(sym.fresh(hint, sym.B))
        if tag == "name":
            return SName(sym.fresh(hint, sym.Name))
        if tag == "opt":
            return SOpt(sym.fresh(hint + "_none", sym.B), self.kw["inner"].fresh(ip, hint))
        if tag == "none":
            return None
        if tag == "const":
            return self.kw["value"]
        if tag == "seq":
            n = sym.fresh(hint + "_len", sym.I)
            ip.path.assume(n >= 0)
            elem = self.kw["elem"]
            base = sym.fresh(hint + "_seq", sym.Ref)
            if elem.tag == "obj":
                EL = sym.fn("ELEM_any", sym.Ref, sym.I, sym.Ref)
                def get(k, elem=elem, base=base):
                    kt = k if not isinstance(k, int) else z3.IntVal(k)
                    o = Opaque(EL(base, kt), elem.kw["cls"], exact=elem.kw["exact"])
                    if elem.kw["exact"]:
                        ip.path.assume(ip.schema.kinds.is_kind(o.ref, elem.kw["cls"]))
                        if elem.kw["cls"] in ip.schema.kinds.const:
                            ip.schema.learn_kind(ip, o.ref, elem.kw["cls"])
                    ip.schema.touch(ip, o)
                    return o
            elif elem.tag == "real":
                ARR = sym.fn("ARR_any", sym.Ref, sym.RealArr)
                def get(k, base=base, elem=elem):
                    kt = k if not isinstance(k, int) else z3.IntVal(k)
                    return SReal(z3.Select(ARR(base), kt), elem.kw["pytype"])
            else:
                raise Unsupported("fresh sequence of " + elem.tag)
            return SSeq(n, get, self.kw["kind"], hint, tag=("fresh", hint, base))
        if tag == "arr":
            n = sym.fresh(hint + "_len", sym.I)
            ip.path.assume(n >= 0)
            return SArr(sym.fresh(hint, sym.RealArr), n=n)
        if tag == "custom":
            return self.kw["maker"](ip, hint)
        raise Unsupported("fresh " + tag)


# ----------------------------------------------------------------------------- loop specifications
class LoopSpec:
    def __init__(self, ordinal: int, inv: Callable, havoc: dict | None = None, name: str = "", after=None):
        self.ordinal = ordinal
        self.inv = inv              # inv(st) -> z3 Bool / list ; st has .i (index term), .n, .var(name), .ip
        self.havoc = havoc or {}
        self.name = name or f"loop{ordinal}"
        self.after = after

    class State:
        def __init__(self, ip, fr, i, n, seq):
            self.ip, self.fr, self.i, self.n, self.seq = ip, fr, i, n, seq

        def var(self, name):
            ok, v = self.fr.lookup(name)
            if not ok:
                # the invariant names a local of the code; after a renaming it is looked for structurally: the unique
                # accumulator of the loop (a name updated from its own value, or an object mutated by a method call /
                # subscript store in the body) -- anything ambiguous stays out of reach
                alt = self._accumulator()
                if alt is not None:
                    ok, v = self.fr.lookup(alt)
                if not ok:
                    raise Unsupported(f"loop invariant mentions undefined local {name}")
            return v

        def _accumulator(self):
            st = getattr(self, "loop_stmt", None)
            if st is None:
                return None
            targets = {m.id for m in ast.walk(st.target) if isinstance(m, ast.Name)} if isinstance(st, ast.For) else set()
            cands = []
            for n in ast.walk(ast.Module(body=list(st.body), type_ignores=[])):
                nm = None
                if isinstance(n, ast.Assign) and len(n.targets) == 1 and isinstance(n.targets[0], ast.Name):
                    t = n.targets[0].id
                    if any(isinstance(m, ast.Name) and m.id == t for m in ast.walk(n.value)):
                        nm = t
                elif isinstance(n, ast.AugAssign) and isinstance(n.target, ast.Name):
                    nm = n.target.id
                elif isinstance(n, ast.Call) and isinstance(n.func, ast.Attribute) and isinstance(n.func.value, ast.Name) \
                        and n.func.attr in ("append", "update", "add", "extend"):
                    nm = n.func.value.id
                elif isinstance(n, ast.Assign) and len(n.targets) == 1 and isinstance(n.targets[0], ast.Subscript) \
                        and isinstance(n.targets[0].value, ast.Name):
                    nm = n.targets[0].value.id
                if nm and nm not in targets and nm not in cands and self.fr.lookup(nm)[0]:
                    cands.append(nm)
            return cands[0] if len(cands) == 1 else None

        def has(self, name):
            return self.fr.lookup(name)[0]

    def _inv_terms(self, st) -> list:
        r = self.inv(st)
        if r is None:
            return []
        if isinstance(r, (list, tuple)):
            return [x for x in r]
        return [r]

    @staticmethod
    def assigned_names(body: list[ast.stmt]) -> list[str]:
        names: list[str] = []
        for st in body:
            for n in ast.walk(st):
                tg = []
                if isinstance(n, ast.Assign):
                    tg = n.targets
                elif isinstance(n, (ast.AugAssign, ast.AnnAssign)):
                    tg = [n.target]
                elif isinstance(n, ast.For):
                    tg = [n.target]
                for t in tg:
                    # only rebinding of names counts; x[i] = v / x.f = v mutate an object (declared via __mutated__)
                    stack = [t]
                    while stack:
                        m = stack.pop()
                        if isinstance(m, ast.Name):
                            if m.id not in names:
                                names.append(m.id)
                        elif isinstance(m, (ast.Tuple, ast.List)):
                            stack.extend(m.elts)
                        elif isinstance(m, ast.Starred):
                            stack.append(m.value)
        return names

    def havoc_value(self, ip, name, cur):
        if name in self.havoc:
            return self.havoc[name].fresh(ip, "hv_" + name)
        if isinstance(cur, SReal):
            return SReal(sym.fresh("hv_" + name, sym.R), cur.pytype)
        if isinstance(cur, float):
            return SReal(sym.fresh("hv_" + name, sym.R), "float")
        if isinstance(cur, bool):
            return SBool(sym.fresh("hv_" + name, sym.B))
        if isinstance(cur, (SInt, int)):
            return SInt(sym.fresh("hv_" + name, sym.I))
        if isinstance(cur, SBool):
            return SBool(sym.fresh("hv_" + name, sym.B))
        if isinstance(cur, Opaque):
            return T.obj(cur.cls, exact=cur.exact).fresh(ip, "hv_" + name)
        if isinstance(cur, SArr):
            return SArr(sym.fresh("hv_" + name, sym.RealArr if cur.shape is None else sym.RealMat), n=cur.n, shape=cur.shape)
        raise Unsupported(f"loop {self.name}: no havoc shape for local {name} ({type(cur).__name__}); declare it in the sidecar")

    def run_for(self, ip: Interp, st: ast.For, it, fr: Frame):
        S = ip.models.as_seq_iter(ip, it)
        n = ip.models.len_term(S.n)
        oid = ip.cur_oid
        path = ip.path
        # initiation
        st0 = LoopSpec.State(ip, fr, z3.IntVal(0), n, S)
        st0.loop_stmt = st
        goals0 = self._inv_terms(st0)
        ip.reg.saturate(ip)
        for j, g in enumerate(goals0):
            path.oblige(oid(f"{self.name} / init #{j}"), g, kind="inv-init")
        modified = [m for m in self.assigned_names(st.body) if fr.lookup(m)[0]]
        # objects mutated in place (x[k] = v) are havocked when the sidecar declares a shape for them
        modified += [m for m in self.havoc if m != "__mutated__" and m not in modified and fr.lookup(m)[0]]
        target_names = [m.id for m in ast.walk(st.target) if isinstance(m, ast.Name)]
        mutated = self.havoc.get("__mutated__")
        # havoc
        # list / dict specifications are keyed by the local's name; after a renaming the local is found structurally (the
        # unique list appended to / dict stored into in the body); an unresolvable name puts the function out of reach
        # (exit 2) instead of producing a refuted initialisation clause
        def _resolve(kind):
            names_ = []
            for n_ in ast.walk(ast.Module(body=list(st.body), type_ignores=[])):
                if kind == "list" and isinstance(n_, ast.Call) and isinstance(n_.func, ast.Attribute) and n_.func.attr == "append" \
                        and isinstance(n_.func.value, ast.Name):
                    nm_ = n_.func.value.id
                elif kind == "dict" and isinstance(n_, ast.Assign) and len(n_.targets) == 1 and isinstance(n_.targets[0], ast.Subscript) \
                        and isinstance(n_.targets[0].value, ast.Name):
                    nm_ = n_.targets[0].value.id
                else:
                    continue
                if nm_ not in names_ and fr.lookup(nm_)[0]:
                    names_.append(nm_)
            return names_
        renamed = {}
        for m, sp_ in list(self.havoc.items()):
            if isinstance(sp_, (ListSpec, DictSpec, FilterListSpec)) and not fr.lookup(m)[0]:
                cands_ = [x for x in _resolve("dict" if isinstance(sp_, DictSpec) else "list") if x not in self.havoc]
                if len(cands_) != 1:
                    raise Unsupported(f"loop {self.name}: the container '{m}' named by the sidecar is not a local of the function")
                renamed[m] = cands_[0]
        if renamed:
            self.havoc = {renamed.get(m, m): sp_ for m, sp_ in self.havoc.items()}
        listspecs = {m: sp_ for m, sp_ in self.havoc.items() if isinstance(sp_, ListSpec)}
        for m in listspecs:
            ok0, cur0 = fr.lookup(m)
            path.oblige(oid(f"{self.name} / init: {m} is the empty list"), z3.BoolVal(ok0 and isinstance(cur0, PList) and not cur0.items),
                        kind="inv-init")
        filterspecs = {m: sp_ for m, sp_ in self.havoc.items() if isinstance(sp_, FilterListSpec)}
        for m in filterspecs:
            ok0, cur0 = fr.lookup(m)
            path.oblige(oid(f"{self.name} / init: {m} is the empty list"), z3.BoolVal(ok0 and isinstance(cur0, PList) and not cur0.items),
                        kind="inv-init")
        dictspecs = {m: sp_ for m, sp_ in self.havoc.items() if isinstance(sp_, DictSpec)}
        for m in dictspecs:
            ok0, cur0 = fr.lookup(m)
            path.oblige(oid(f"{self.name} / init: {m} is the empty dict"), z3.BoolVal(ok0 and isinstance(cur0, PDict) and not cur0.items),
                        kind="inv-init")
        i_pre = sym.fresh("i_" + self.name, sym.I)
        for m in modified:
            if m in target_names:
                continue
            ok, cur = fr.lookup(m)
            if m in listspecs or m in dictspecs or m in filterspecs:
                continue
            fr.assign(m, self.havoc_value(ip, m, cur))
        if mutated is not None:
            mutated(ip, fr)
        iterate = path.branch(sym.fresh("iterate_" + self.name, sym.B), f"{self.name}: check an arbitrary iteration")
        if iterate:
            i = i_pre
            for m, ls in listspecs.items():
                fr.assign(m, GList(SSeq(i, ls.spec_elem, "list", ls.tagname, tag=("listspec", ls.tagname)), []))
            for m, fs in filterspecs.items():
                fr.assign(m, GList(fs.view(ip, fs.cnt(i)), []))
            dict_writes = {}
            for m, ds in dictspecs.items():
                writes = []
                dict_writes[m] = writes
                fr.assign(m, SpecFn(None, f"dict {m} under construction",
                                    meta={"setitem": lambda ip_, k_, v_, w=writes: w.append((k_, v_))}))
            path.assume(i >= 0)
            path.assume(i < n)
            ip.reg.loop_index(ip, i)
            ip.reg.index_used(ip, i)        # element facts of every registered sequence at the arbitrary iteration
            sti = LoopSpec.State(ip, fr, i, n, S)
            sti.loop_stmt = st
            for g in self._inv_terms(sti):
                path.assume(g)
            ip.assign_target(st.target, S.get(i), fr)
            try:
                ip.exec_block(st.body, fr)
            except _Continue:
                pass
            except _Break:
                # state after break continues after the loop without the invariant at n
                return
            stn = LoopSpec.State(ip, fr, i + 1, n, S)
            stn.loop_stmt = st
            goalsn = self._inv_terms(stn)
            # lists built by append: exactly one element appended, and it is the specified element i
            assigned_in_body = [m for m in self.assigned_names(st.body)] + target_names
            for m, ls in listspecs.items():
                ok_, gl = fr.lookup(m)
                if not isinstance(gl, GList) or len(gl.appended) != 1:
                    goalsn.append(z3.BoolVal(False))
                    continue
                # closures created in the body are called after the loop: locals the loop rebinds are then stale
                saved = {}
                for nm_ in assigned_in_body:
                    if nm_ in fr.locals:
                        saved[nm_] = fr.locals[nm_]
                        fr.locals[nm_] = Poison(nm_)
                try:
                    from .interp import LateBound
                    try:
                        goalsn.extend(ls.equal(ip, gl.appended[0], i))
                    except LateBound as lb_:
                        path.oblige(oid(f"{self.name} / element of {m}: closure reads the loop-rebound variable '{lb_.name}' when called later"),
                                    False, kind="inv-preserve")
                finally:
                    for nm_, v_ in saved.items():
                        fr.locals[nm_] = v_
            for m, fs in filterspecs.items():
                ok_, gl = fr.lookup(m)
                if not isinstance(gl, GList) or len(gl.appended) > 1:
                    goalsn.append(z3.BoolVal(False))
                    continue
                if not gl.appended:
                    goalsn.append(z3.Not(fs.keep(i)))          # nothing appended on this path: the iteration is not a kept one
                    continue
                goalsn.append(fs.keep(i))
                saved = {}
                for nm_ in assigned_in_body:
                    if nm_ in fr.locals:
                        saved[nm_] = fr.locals[nm_]
                        fr.locals[nm_] = Poison(nm_)
                try:
                    from .interp import LateBound
                    try:
                        goalsn.extend(fs.elem_ok(ip, gl.appended[0], fs.cnt(i)))
                    except LateBound as lb_:
                        path.oblige(oid(f"{self.name} / element of {m}: closure reads the loop-rebound variable '{lb_.name}' when called later"),
                                    False, kind="inv-preserve")
                finally:
                    for nm_, v_ in saved.items():
                        fr.locals[nm_] = v_
            for m, ds in dictspecs.items():
                w = dict_writes[m]
                if len(w) != 1:
                    goalsn.append(z3.BoolVal(False))
                    continue
                goalsn.extend(ds.written(ip, w[0][0], w[0][1], i))
            ip.reg.saturate(ip)
            for j, g in enumerate(goalsn):
                path.oblige(oid(f"{self.name} / preserve #{j}"), g, kind="inv-preserve")
            raise PathCut()
        # exit: invariant at n
        for m, ds in dictspecs.items():
            fr.assign(m, ds.make_map(ip, n))
        for m, ls in listspecs.items():
            fr.assign(m, SSeq(n, ls.spec_elem, "list", ls.tagname, tag=("listspec", ls.tagname)))
        for m, fs in filterspecs.items():
            fr.assign(m, fs.view(ip, fs.cnt(n)))
        ste = LoopSpec.State(ip, fr, n, n, S)
        ste.loop_stmt = st
        for g in self._inv_terms(ste):
            path.assume(g)
        if self.after is not None:
            self.after(ste)
        ip.exec_block(st.orelse, fr)

    def run_while(self, ip: Interp, st: ast.While, fr: Frame):
        """while-loop with invariant inv(st) (st.i unused): init / arbitrary iteration / exit with not(cond)."""
        path = ip.path
        oid = ip.cur_oid
        st0 = LoopSpec.State(ip, fr, None, None, None)
        for j, g in enumerate(self._inv_terms(st0)):
            path.oblige(oid(f"{self.name} / init #{j}"), g, kind="inv-init")
        modified = [m for m in self.assigned_names(st.body) if fr.lookup(m)[0]]
        for m in modified:
            ok, cur = fr.lookup(m)
            fr.assign(m, self.havoc_value(ip, m, cur))
        mutated = self.havoc.get("__mutated__")
        if mutated is not None:
            mutated(ip, fr)
        sti = LoopSpec.State(ip, fr, None, None, None)
        for g in self._inv_terms(sti):
            path.assume(g)
        c = ip.ev(st.test, fr)
        if ip.truth(c, "while " + ip.src_text(st.test)):
            try:
                ip.exec_block(st.body, fr)
            except _Continue:
                pass
            except _Break:
                return
            stn = LoopSpec.State(ip, fr, None, None, None)
            for j, g in enumerate(self._inv_terms(stn)):
                path.oblige(oid(f"{self.name} / preserve #{j}"), g, kind="inv-preserve")
            raise PathCut()
        ip.exec_block(st.orelse, fr)


class ListSpec:
    """Specification of a list built by one append per iteration: element k of the finished list is spec_elem(k);
    equal(ip, appended_value, k) returns the z3 goals stating that the value appended in iteration k is that element."""
    def __init__(self, spec_elem, equal, tagname="list"):
        self.spec_elem = spec_elem
        self.equal = equal
        self.tagname = tagname


class FilterListSpec:
    """Specification of a list built by AT MOST one append per iteration (a filter): iteration k appends iff keep(k);
    cnt(k) is the number of kept iterations below k, i.e. the length after k iterations (the sidecar supplies it together with
    the instances of its defining equations, see seqtheory.filter_count).  The element at list position p is the abstract
    value fresh_elem(p), about which exactly elem_ok(ip, value, p) is known: the engine assumes those facts for positions
    inside the list built so far and obliges them for the value appended in iteration k at position cnt(k) -- one predicate
    for both directions, so nothing can be assumed of an element that was not proved when it was appended."""
    def __init__(self, keep, cnt, fresh_elem, elem_ok, tagname="list", row_len=None):
        self.keep = keep
        self.cnt = cnt
        self.fresh_elem = fresh_elem
        self.elem_ok = elem_ok
        self.tagname = tagname
        self.row_len = row_len          # elements are 1-D arrays of this length (np.array of the list is a matrix)

    def view(self, ip, bound):
        def get(p):
            pt = p if not isinstance(p, int) else z3.IntVal(p)
            v = self.fresh_elem(pt)
            facts = list(self.elem_ok(ip, v, pt))
            if facts:
                ip.path.assume(z3.Implies(z3.And(pt >= 0, pt < bound), z3.And(*facts)))
            return v
        S = SSeq(bound, get, "list", self.tagname, tag=("listspec", self.tagname))
        S.elem_rowlen = self.row_len
        return S


class DictSpec:
    """Specification of a dict built by one `d[key] = value` per iteration: after i iterations the dict is make_map(ip, i)
    (an SMap over the first i source elements); written(ip, key, value, i) returns the goals stating that the pair written in
    iteration i is the pair the map specifies for position i."""
    def __init__(self, make_map, written):
        self.make_map = make_map
        self.written = written


class PathCut(Exception):
    """The path ends here by construction (arbitrary loop iteration checked)."""


# ----------------------------------------------------------------------------- contract context
class Ctx:
    def __init__(self, contract: "Contract", ip: Interp, mode: str, case: dict | None = None,
                 actual_args: list | None = None, actual_kwargs: dict | None = None, via: str = ""):
        self.contract = contract
        self.ip = ip
        self.mode = mode                  # 'verify' | 'apply'
        self.case = case or {}
        self.actual_args = list(actual_args or [])
        self.actual_kwargs = dict(actual_kwargs or {})
        self.argvals: dict[str, Any] = {}
        self.argorder: list[str] = []
        self.ensures_: list[tuple[str, Callable, dict]] = []
        self.raises_: list[tuple[str, Any, str]] = []   # (exception class, condition term or None, clause name)
        self.ret_type: T | None = None
        self.loops: dict[int, LoopSpec] = {}
        self.pre_obligations: list = []
        self.result_maker = None
        self.measure = None
        self.S = ip.schema
        self.via = via
        self.allow_any_raise = False
        self.on_exit: list = []

    @property
    def verifying(self) -> bool:
        return self.mode == "verify"

    @property
    def path(self) -> Path:
        return self.ip.path

    # ---- declarations
    def arg(self, name: str, ty: T | None = None, default=None):
        """Declare an argument (in positional order).  verify: fresh symbolic value; apply: the actual value."""
        idx = len(self.argorder)
        self.argorder.append(name)
        if self.mode == "apply":
            if idx < len(self.actual_args):
                v = self.actual_args[idx]
            elif name in self.actual_kwargs:
                v = self.actual_kwargs[name]
            else:
                v = default() if callable(default) else default
            v = self.ip.models.narrow(self.ip, v)
        else:
            if ty is None:
                raise Unsupported(f"{self.contract.key}: argument {name} needs a type for verification")
            v = ty.fresh(self.ip, name)
        self.argvals[name] = v
        return v

    def choose(self, name: str, options: list):
        """Case split of the verification (exhaustive by construction); None when the contract is applied."""
        if self.mode == "apply":
            return None
        return self.case[name]

    def requires(self, *facts, name: str = "pre"):
        for f in facts:
            if self.mode == "verify":
                self.path.assume(f)
            else:
                self.ip.reg.saturate(self.ip)
                self.path.oblige(self.ip.cur_oid(f"call {self.contract.short} / {name}"), f, kind="pre",
                                 callee=self.contract.key)

    def assume(self, *facts):
        """Facts that hold by construction of the spec vocabulary (not obligations for callers)."""
        for f in facts:
            self.path.assume(f)

    def returns(self, ty: T | Callable):
        self.ret_type = ty

    def ensures(self, name: str, fn: Callable, **meta):
        self.ensures_.append((name, fn, meta))

    def raises(self, exc_cls: str, when=None, name: str | None = None):
        self.raises_.append((exc_cls, when, name or f"raises {exc_cls}"))

    def may_raise_anything(self):
        self.allow_any_raise = True

    def loop(self, ordinal: int, inv: Callable, havoc: dict | None = None, name: str = "", after=None, owner: str | None = None):
        """Invariant of the ordinal-th loop (source order) of the function under proof, or -- with `owner` -- of a nested
        function of it (closure): owner is the nested function's key, ordinals count inside that function."""
        key = ordinal if owner is None else (owner, ordinal)
        self.loops[key] = LoopSpec(ordinal, inv, havoc, name or (f"#loop{ordinal}" if owner is None else f"{owner.split('.')[-1]}#loop{ordinal}"), after)

    def decreases(self, root):
        """Root tree argument: recursive calls inside the same recursion group must be on strict sub-terms."""
        self.measure = root

    # ---- loop lookup for the interpreter
    def loop_for(self, ip, st, fr):
        fi = fr.finfo
        owner = getattr(self, "loop_owner", None) or self.contract.key
        if fi is None:
            return None
        if fi.key != owner:
            if fi.key.startswith(owner + ".") and fi.key in ip.src.funcs:
                ordinal = self.contract.loop_ordinal(ip.src, st, fi.key)
                return self.loops.get((fi.key, ordinal))
            return None
        ordinal = self.contract.loop_ordinal(ip.src, st, owner)
        return self.loops.get(ordinal)


@dataclass
class Contract:
    key: str                    # module:qualname  (or 'virtual:Class.method', 'ctor:Class')
    fn: Callable[[Ctx], None]
    props: list[str]
    cases: dict[str, list] = field(default_factory=dict)   # case variable -> options (product is enumerated)
    group: str | None = None    # recursion group
    rank: int = 0
    inline_callees: list[str] = field(default_factory=list)
    trusted: str | None = None  # reason if the contract is assumed, not verified (external / out of reach)
    bounded: str | None = None
    skip_cases: Callable | None = None
    note: str = ""
    vacuous_ok: bool = False     # cases whose precondition is unsatisfiable are expected (recorded, not flagged)
    extra_props: list[str] = field(default_factory=list)   # properties that own only the clauses tagged with them (props=[...])
    no_param_reads: bool = False  # builder: the body must not read any Parameter's current value (C12 frame clause)

    @property
    def short(self) -> str:
        return self.key.split(":", 1)[1]

    def loop_ordinal(self, src, st, owner=None) -> int:
        """1-based ordinal of a for/while statement in source order; nested defs have their own numbering."""
        fi = src.funcs[owner or self.key]
        found = []

        def visit(n):
            for ch in ast.iter_child_nodes(n):
                if isinstance(ch, (ast.FunctionDef, ast.Lambda, ast.ClassDef)):
                    continue
                if isinstance(ch, (ast.For, ast.While)):
                    found.append(ch)
                visit(ch)
        visit(fi.node)
        for k, n in enumerate(found):
            if n is st:
                return k + 1
        return -1

    # ---------------------------------------------------------------- apply at a call site
    def apply(self, ip: Interp, args, kwargs, node=None, via: str = ""):
        c = Ctx(self, ip, "apply", actual_args=args, actual_kwargs=kwargs, via=via)
        # recursion discipline
        self.fn(c)
        if ip.current_contract is not None and self.group and ip.current_contract.contract.group == self.group:
            ip.reg.check_measure(ip, ip.current_contract, c, node)
        # exceptional outcomes declared by the contract: fork
        for exc_cls, when, _nm in c.raises_:
            if when is None:
                cond = sym.fresh("raises_" + exc_cls, sym.B)
            else:
                cond = when
            if ip.path.branch(cond, f"{self.short} raises {exc_cls}"):
                raise RaiseEx(ExcVal(exc_cls))
        if c.result_maker is not None:
            res = c.result_maker(c)
        elif c.ret_type is None:
            res = None
        elif callable(c.ret_type) and not isinstance(c.ret_type, T):
            res = c.ret_type(c)
        else:
            res = c.ret_type.fresh(ip, "r_" + self.short.split(".")[-1])
        for name, fn_, _meta in c.ensures_:
            g = fn_(res)
            for t in (g if isinstance(g, (list, tuple)) else [g]):
                if t is not None:
                    ip.path.assume(t)
        return res


class Registry:
    def __init__(self):
        self.contracts: dict[str, Contract] = {}
        self.virtuals: dict[tuple[str, str], Contract] = {}
        self.ctors: dict[str, Contract] = {}
        self.inline: set[str] = set()
        self.externals: dict[str, Callable] = {}
        self.unfolders: list[Callable] = []
        self.known_field_hooks: list[Callable] = []
        self.write_hooks: dict[str, Callable] = {}
        self.assumptions: list[str] = []

    # ---- registration API used by the sidecar
    def contract(self, key: str, props: list[str], cases: dict | None = None, group: str | None = None, rank: int = 0,
                 trusted: str | None = None, bounded: str | None = None, skip_cases=None, note: str = "",
                 vacuous_ok: bool = False):
        def deco(fn):
            ct = Contract(key, fn, props, cases or {}, group, rank, trusted=trusted, bounded=bounded,
                          skip_cases=skip_cases, note=note, vacuous_ok=vacuous_ok)
            if key.startswith("virtual:"):
                cls, meth = key[len("virtual:"):].split(".")
                self.virtuals[(cls, meth)] = ct
            elif key.startswith("ctor:"):
                self.ctors[key[len("ctor:"):]] = ct
            self.contracts[key] = ct
            return fn
        return deco

    def mark_inline(self, *keys: str):
        self.inline.update(keys)

    def external_model(self, name: str):
        def deco(fn):
            self.externals[name] = fn
            return fn
        return deco

    def add_unfolder(self, fn):
        self.unfolders.append(fn)
        return fn

    def assumption(self, text: str):
        if text not in self.assumptions:
            self.assumptions.append(text)

    # ---- lookups used by the interpreter
    def contract_for(self, key: str) -> Contract | None:
        return self.contracts.get(key)

    def contract_for_ctor(self, cls: str) -> Contract | None:
        return self.ctors.get(cls)

    def virtual_contract(self, cls: str, meth: str) -> Contract | None:
        return self.virtuals.get((cls, meth))

    def virtual_for_method(self, src, cls: str, meth: str) -> Contract | None:
        for c in src.mro(cls):
            v = self.virtuals.get((c, meth))
            if v is not None:
                return v
        return None

    def is_inline(self, key: str) -> bool:
        return key in self.inline

    def may_unfold(self, src, fi) -> bool:
        if fi.key in self.inline:
            return True
        # constructors and dunder one-liners of the scanned classes are unfolded (listed in evidence)
        if fi.name in ("__init__", "__post_init__") or (fi.name.startswith("__") and fi.name.endswith("__")):
            return True
        if "property" in fi.decorators:
            return True
        return False

    def external(self, name: str):
        return self.externals.get(name)

    def saturate(self, ip):
        h = getattr(self, "saturate_hook", None)
        if h is not None:
            h(ip)

    def index_used(self, ip, k):
        h = getattr(self, "index_used_hook", None)
        if h is not None:
            h(ip, k)

    def loop_index(self, ip, i):
        h = getattr(self, "loop_index_hook", None)
        if h is not None:
            h(ip, i)

    def unfolder(self, schema, ip, o):
        for u in self.unfolders:
            u(schema, ip, o)

    def assume_known_field(self, ip, o, f, v):
        S = ip.schema
        from .spec import FIELDS
        tag = FIELDS[f][0]
        if tag == "name":
            ip.path.assume(S.F(f, sym.Name)(o.ref) == ip.models.name_term(v))
        elif tag == "real":
            ip.path.assume(S.F(f, sym.R)(o.ref) == real_term(v))
        elif tag == "int":
            ip.path.assume(S.F(f, sym.I)(o.ref) == num_term(v))

    def field_write_hook(self, o, attr):
        return self.write_hooks.get(attr)

    def check_measure(self, ip, caller: Ctx, callee: Ctx, node=None):
        if caller.measure is None or callee.measure is None:
            raise Unsupported(f"recursive use of {callee.contract.key} inside {caller.contract.key} without decreases()")
        root = caller.measure
        arg = callee.measure
        rt = ip.models.ref_of(ip, root)
        at = arg.ref if isinstance(arg, Opaque) else None
        if at is None:
            raise Unsupported(f"recursive call of {callee.contract.short} on an object built on this path "
                              f"(not a sub-term of the input)")
        if at.eq(rt):
            if callee.contract.rank < caller.contract.rank:
                return
            raise Unsupported(f"recursive call {caller.contract.short} -> {callee.contract.short} on the same term "
                              f"without a decreasing rank")
        if not is_strict_subterm(at, rt):
            raise Unsupported(f"recursive call of {callee.contract.short} on {at}, which is not a field projection of {rt}")


def is_strict_subterm(t, root) -> bool:
    """t is built from `root` by field projections only (F_*, ELEM_*)."""
    seen = 0
    cur = t
    while True:
        if cur.eq(root):
            return seen > 0
        if z3.is_app(cur) and cur.num_args() >= 1:
            nm = cur.decl().name()
            if nm.startswith("F_") or nm.startswith("ELEM_"):
                cur = cur.arg(0)
                seen += 1
                continue
        return False


# ----------------------------------------------------------------------------- verification driver
@dataclass
class FunctionReport:
    key: str
    props: list[str]
    status: str = "proved"          # proved | refuted | undecided | unsupported | trusted | bounded
    cases: int = 0
    paths: int = 0
    infeasible: int = 0
    obligations: list[Obligation] = field(default_factory=list)
    unsupported: list[str] = field(default_factory=list)
    inlined: set[str] = field(default_factory=set)
    callee_contracts: set[str] = field(default_factory=set)
    seconds: float = 0.0
    vacuous_cases: list[str] = field(default_factory=list)
    path_outcomes: dict[str, int] = field(default_factory=dict)
    witnesses: list = field(default_factory=list)


def make_parent_frame(ip, src, fi):
    """Frame of the enclosing function for a nested def under proof: its import statements are executed (they bind
    the class names the nested body refers to); nothing else of the enclosing body is."""
    if "." not in fi.qualname:
        return None
    parent_q = fi.qualname.rsplit(".", 1)[0]
    pf = src.funcs.get(f"{fi.module}:{parent_q}")
    if pf is None or pf.cls == parent_q:
        return None
    if f"{fi.module}:{parent_q}" not in src.funcs or parent_q in src.modules[fi.module].classes:
        return None
    fr = Frame(fi.module, {}, None, pf)
    for st in pf.node.body:
        if isinstance(st, (ast.ImportFrom, ast.Import)):
            ip.exec_stmt(st, fr)
    return fr


def case_product(cases: dict[str, list]) -> list[dict]:
    if not cases:
        return [{}]
    if "__combos__" in cases:
        return [dict(cb) for cb in cases["__combos__"]]
    keys = list(cases)
    return [dict(zip(keys, combo)) for combo in itertools.product(*[cases[k] for k in keys])]


def case_name(case: dict) -> str:
    if not case:
        return "all"
    return ",".join(f"{k}={v}" for k, v in case.items())


def list_cases(ct: Contract) -> list[str]:
    out = []
    for case in case_product(ct.cases):
        if ct.skip_cases is not None and ct.skip_cases(case):
            continue
        out.append(case_name(case))
    return out


def verify_function(src, registry: Registry, schema_factory, models, ct: Contract, max_paths=4000,
                    solver_timeout_ms=2000, only_cases: set | None = None) -> FunctionReport:
    rep = FunctionReport(ct.key, ct.props)
    t0 = time.time()
    if ct.trusted:
        rep.status = "trusted"
        return rep
    if ct.bounded:
        rep.status = "bounded"
        return rep
    synthetic = ct.key.startswith("lemma:")
    fi = src.funcs.get(ct.key)
    if fi is None and not synthetic:
        rep.status = "unsupported"
        rep.unsupported.append(f"contract names {ct.key}, which does not exist in the current source")
        return rep
    for case in case_product(ct.cases):
        if ct.skip_cases is not None and ct.skip_cases(case):
            continue
        cname = case_name(case)
        if only_cases is not None and cname not in only_cases:
            continue
        rep.cases += 1

        def run_one(path: Path, case=case, cname=cname):
            schema = schema_factory()
            ip = Interp(src, path, registry, schema, models, under_proof=ct.key)
            ip.oid_prefix = f"{ct.key} / {cname}"
            for g in getattr(registry, "global_inits", []):
                g(ip)
            ip.cur_oid = lambda clause, ip=ip: f"{ip.oid_prefix} / {clause}"
            c = Ctx(ct, ip, "verify", case=case)
            ct.fn(c)
            ip.current_contract = c
            args = [c.argvals[a] for a in c.argorder]
            # cover: the precondition of the case must be satisfiable (vacuity guard)
            path.ghost["ctx"] = c
            outcome, val = "return", None
            try:
                if synthetic:
                    val = c.synthetic_body(c) if getattr(c, "synthetic_body", None) else None
                else:
                    star = getattr(c, "star_kwargs", None)      # symbolic **kwargs of the function under proof
                    val = ip.run_body(fi, args, {} if star is None else {"**": star}, None,
                                      parent_frame=make_parent_frame(ip, src, fi))
            except RaiseEx as r:
                outcome, val = "raise", r.exc
            except PathCut:
                outcome = "cut"
            path.ghost["ip"] = ip
            if ct.no_param_reads and outcome in ("return", "raise"):
                reads = [pl for t_, pl in path.events if t_ == "param-read"]
                path.oblige(f"{ip.oid_prefix} / no Parameter's current value is read while the result is built", z3.BoolVal(not reads),
                            kind="frame", props=["C12"], detail=f"{len(reads)} read(s) of Parameter._value")
            if outcome == "return":
                val = ip.models.narrow(ip, val)
                goals = []
                try:
                    for name, fn_, meta in c.ensures_:
                        g = fn_(val)
                        for j, t in enumerate(g if isinstance(g, (list, tuple)) else [g]):
                            if t is None:
                                continue
                            goals.append((f"{ip.oid_prefix} / {name}" + (f"#{j}" if isinstance(g, (list, tuple)) and len(g) > 1 else ""), t, name))
                except PathCut:
                    # a returned closure, called by the post-condition, contains a loop: this path checked an arbitrary
                    # iteration of it (its obligations are recorded) and ends here
                    outcome = "cut"
                    goals = []
                registry.saturate(ip)
                for oid_, t, name in goals:
                    path.oblige(oid_, t, kind="post", clause=name)
                # a declared `raises X when C` is an iff: returning normally requires not C
                for exc_cls, when, nm in c.raises_:
                    if when is not None:
                        path.oblige(f"{ip.oid_prefix} / {nm} (returns only if not)", z3.Not(when), kind="post", clause=nm)
            elif outcome == "raise":
                matched = False
                for exc_cls, when, nm in c.raises_:
                    if val.cls == exc_cls or ip.exc_is_subclass(val.cls, exc_cls):
                        matched = True
                        path.oblige(f"{ip.oid_prefix} / {nm}", when if when is not None else True, kind="post", clause=nm)
                        break
                # "may raise anything" covers what an external call may throw (an exception object of unknown class, created by
                # the external model), not exceptions the code under proof raises by itself (KeyError, AttributeError, ...)
                if not matched and not (c.allow_any_raise and val.cls == "?"):
                    path.oblige(f"{ip.oid_prefix} / no-raise", False, kind="no-raise", exc=val.cls,
                                detail=str(val.args)[:80])
            for hook in c.on_exit:
                hook(c, outcome, val)
            # vacuity guard: the final path condition itself must be satisfiable
            if path.check_sat() == "unsat":
                raise Infeasible()
            return outcome, val

        try:
            results = explore(run_one, max_paths=max_paths, solver_timeout_ms=solver_timeout_ms)
        except Unsupported as e:
            rep.unsupported.append(f"{cname}: {e}")
            continue
        feasible = 0
        for r in results:
            rep.paths += 1
            rep.path_outcomes[r.outcome] = rep.path_outcomes.get(r.outcome, 0) + 1
            if r.outcome == "infeasible":
                rep.infeasible += 1
                continue
            if r.outcome == "unsupported":
                rep.unsupported.append(f"{cname}: {r.detail}")
                continue
            feasible += 1
            rep.obligations.extend(r.path.obligations)
            ip = r.path.ghost.get("ip")
            if ip is not None:
                rep.inlined |= ip.inline_log
                rep.callee_contracts |= ip.called_contracts
            rep.witnesses.append((cname, r.outcome, r.path))
        if feasible == 0 and not ct.vacuous_ok:
            rep.vacuous_cases.append(cname)
    rep.seconds = time.time() - t0
    if rep.unsupported:
        rep.status = "unsupported"
    return rep
