"""Bounded stand-in for the natural (numeric-aware) order of Problem.variables (C16) -- labelled bounded, never counted as proved.

The proof side shows that Problem.variables is `sorted(<exactly the mentioned variables>, key=_natural_sort_key)`; that the key
really orders names "naturally" (x[2] before x[10], A[1,2] before A[1,10], digit runs compared as numbers, everything else as
text) is string processing outside the executor's theories.  Here problems are built over pools of names and the order of
Problem.variables is compared with an independent natural sort, for every pool and several insertion orders.

Bounds: the name pools below (vector elements with 1-3 digit indices, matrix elements, suffixed scalars, mixed prefixes), 4
creation / mention orders each; plus nine models whose objective / constraints mix several views (slices) of one vector, where
the list must be exactly the variables mentioned (the single-vector shortcut is a worklist traversal without a proof).
"""
from __future__ import annotations

import itertools
import json
import random
import re
import sys
import time


def ref_key(name: str):
    """independent natural key: maximal digit runs compare as integers, the rest as text; a number sorts before text"""
    out = []
    for m in re.finditer(r"\d+|\D+", name):
        t = m.group(0)
        out.append((0, int(t), "") if t.isdigit() else (1, 0, t))
    return out


POOLS = {
    "vector 0..12": [f"x[{i}]" for i in range(13)],
    "vector sparse": [f"x[{i}]" for i in (0, 2, 9, 10, 11, 19, 20, 100, 101)],
    "matrix 3x12": [f"A[{i},{j}]" for i in range(3) for j in (0, 1, 2, 9, 10, 11)],
    "suffixed scalars": ["y_1", "y_2", "y_10", "y_11", "y_20", "y_100", "y"],
    "mixed": ["a", "b", "x[1]", "x[10]", "x[2]", "y[1]", "y[10]", "z", "x", "w2", "w10", "w1"],
    "two vectors": [f"{p}[{i}]" for p in ("u", "v") for i in (0, 1, 2, 10, 11)],
}


def main():
    job = json.loads(sys.stdin.read())
    rng = random.Random(job.get("seed", 0) + 3)
    t0 = time.time()
    from optyx import Variable, Problem
    fails, cases = [], 0
    for pname, names in POOLS.items():
        want = sorted(names, key=ref_key)
        orders = [list(names), list(reversed(names)), sorted(names), rng.sample(names, len(names))]
        for oi, order in enumerate(orders):
            cases += 1
            vs = {n: Variable(n, lb=0.0, ub=1.0) for n in order}
            obj = None
            for n in order:
                obj = vs[n] * 1.0 if obj is None else obj + vs[n] * 1.0
            P = Problem().minimize(obj)
            # half of the variables are mentioned again, in another order, by constraints
            for n in list(reversed(order))[::2]:
                P.subject_to(vs[n] <= 1.0)
            got = [v.name for v in P.variables]
            if got != want:
                k = next(i for i, (a, b) in enumerate(zip(got, want)) if a != b) if len(got) == len(want) else -1
                fails.append((pname, oi, f"position {k}: {got[k] if k >= 0 else len(got)} where the natural order has {want[k] if k >= 0 else len(want)}"))
    # objectives that mix several views of one vector (and constraints over other views): the single-vector shortcut must not
    # mistake two different views for one source -- expected list = natural order of the union of the variables mentioned
    import numpy as np
    from optyx import VectorVariable

    def view_models():
        x = VectorVariable("x", 6, lb=0.0, ub=1.0)
        y = VectorVariable("y", 3, lb=0.0, ub=1.0)
        c3 = np.array([1.0, 2.0, 3.0])
        yield "x[:]+x[::2]", x[:].sum() + x[::2].sum(), []
        yield "x[::2]+x[:]", x[::2].sum() + x[:].sum(), []
        yield "x[0:3]+x[3:6]", x[0:3].sum() + x[3:6].sum(), []
        yield "x[1:4] then x[::2] in a constraint", x[1:4].sum(), [x[::2].sum() <= 2.0]
        yield "c@x[::2] + x[1::2].sum()", c3 @ x[::2] + x[1::2].sum(), []
        yield "x[::2].dot(x[::2]) + x[1:3].sum()", x[::2].dot(x[::2]) + x[1:3].sum(), []
        yield "(x[:3]**2).sum() + (x[3:]**2).sum()", (x[:3] ** 2).sum() + (x[3:] ** 2).sum(), []
        yield "x[::2] and y", x[::2].sum() + y.sum(), [x[1] + y[0] <= 1.0]
        yield "x[:2].sum() with x[4] only in the last constraint", x[:2].sum(), [x[0] <= 1.0, x[1] + x[4] <= 1.5]
    for vname, obj, cons in view_models():
        cases += 1
        P = Problem().minimize(obj)
        for k in cons:
            P.subject_to(k)
        mentioned = set(v.name for v in obj.get_variables())
        for k in cons:
            mentioned |= set(v.name for v in k.expr.get_variables())
        want = sorted(mentioned, key=ref_key)
        got = [v.name for v in P.variables]
        if got != want or P.n_variables != len(want) or len(P.get_bounds()) != len(want):
            fails.append(("views: " + vname, 0, f"variables {got} (n_variables {P.n_variables}), the model mentions {want}"))
    out, seen = [], set()
    for pname, oi, what in fails:
        sig = f"order:{pname}"
        if sig in seen:
            continue
        seen.add(sig)
        out.append({"signature": sig, "what": f"Problem.variables over the pool '{pname}' (creation order #{oi}): {what}", "job": {"pool": pname, "order": oi}})
    print(json.dumps({"cases": cases, "distinct": len(POOLS), "exhaustive": False, "seconds": round(time.time() - t0, 2), "failures": out}))


if __name__ == "__main__":
    main()
