"""Contracts for the derivative compilers: compute_jacobian, compile_jacobian, compile_gradient, compile_hessian,
compute_hessian, jacobian_row implementations, _sanitize_derivatives (C03, C17, C19)."""
from __future__ import annotations

import z3

from pyvc import sym
from pyvc.contracts import T
from pyvc.values import Obj, Opaque, PList, SArr, SBool, SInt, SOpt, SReal, SSeq, SpecFn, Unsupported, real_term

from .specfns import Spec
from .compiler_c import (IDXS, NV, DOMOF, names_of_varlist, index_map_of_varlist, point_for, compile_cases)

AD = "optyx.core.autodiff"
CP = "optyx.core.compiler"
FN = sym.fn("F_name", sym.Ref, sym.Name)
D2V = sym.fn("D2V", sym.Ref, sym.Name, sym.Name, sym.EnvSort, sym.PVSort, sym.R)     # true second partial derivative
REG2 = sym.fn("REG2", sym.Ref, sym.Name, sym.Name, sym.EnvSort, sym.PVSort, sym.B)   # regular for both differentiations


def install(reg, src):
    from .analysis_c import setup_node
    from .seqtheory import skolem, add_index
    cases = compile_cases(src)

    def varlist(c, name="variables"):
        vs = c.arg(name, T.seq(T.obj("Variable", exact=True)))
        if not isinstance(vs, SSeq) or not vs.tag:
            raise Unsupported("derivative compiler called with an untracked variable list")
        return vs

    def env_of(ip, x, IDX):
        if x.envlink is None:
            x.envlink = (IDX, sym.fresh("ENV_x", sym.EnvSort), ip.path)
        return x.envlink[1]

    # ---- compile_hessian (C17): H(x)[i][j] = d2 den / dV_i dV_j at doubly regular points; symmetric by construction
    @reg.contract(f"{AD}:compile_hessian", props=["C17", "C09"],
                  bounded="diagonal shortcuts and the upper-triangle mirroring loop are not yet under proof; the symbolic entries "
                          "come from compute_hessian = gradient(gradient(e, V_i), V_j), both steps proved (C02); bounded stand-in")
    def _(c):
        sp = Spec(c.ip)
        ip = c.ip
        e = c.arg("expr", T.expr())
        vs = varlist(c)
        NS = names_of_varlist(ip, vs)
        m = index_map_of_varlist(ip, vs)
        IDX = m.idx
        n = ip.models.len_term(vs.n)

        def call(ip2, x):
            sp2 = Spec(ip2)
            E = env_of(ip2, x, IDX)
            r = sp2.ref(e)

            def at(i, j):
                return SReal(D2V(r, FN(vs.get(i).ref), FN(vs.get(j).ref), E, sp2.PV), "npfloat")
            return SpecFn(None, "hessian matrix", meta={"getitem": lambda ip3, key: at(*key), "shape": (n, n)})
        c.returns(lambda cc: SpecFn(call, "compiled hessian"))

    # ---- compile_jacobian: J(x)[i][j] = d den(e_i) / dV_j at regular points (only the single-row use of the solver)
    @reg.contract(f"{AD}:compile_jacobian", props=["C03", "C09", "C10"],
                  bounded="fast paths 0/1/2 and the general double loop are exercised by the bounded stand-in; rows come from "
                          "jacobian_row / gradient (C02/C03 contracts)")
    def _(c):
        sp = Spec(c.ip)
        ip = c.ip
        es = c.arg("exprs")
        vs = varlist(c)
        m = index_map_of_varlist(ip, vs)
        IDX = m.idx
        n = ip.models.len_term(vs.n)
        if not isinstance(es, PList) or len(es.items) != 1:
            raise Unsupported("compile_jacobian contract is stated for a single expression (the solver's use)")
        e = es.items[0]

        def call(ip2, x):
            sp2 = Spec(ip2)
            E = env_of(ip2, x, IDX)
            row = SSeq(n, lambda k: SReal(sp2.dv(e, FN(vs.get(k).ref), E, sp2.PV), "npfloat"), "ndarray", "jacobian-row")
            return SpecFn(None, "jacobian 1xn", meta={"methods": {"flatten": lambda ip3: row}, "row": row})
        c.returns(lambda cc: SpecFn(call, "compiled jacobian"))
